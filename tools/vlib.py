"""Shared machinery for the checks: wire format, line-protocol subprocesses, build steps,
verdict bookkeeping, evidence and replay files.  Standard library only."""
import fcntl, hashlib, json, os, random, re, shutil, subprocess, sys, tempfile, time

VERIF = os.path.dirname(os.path.dirname(os.path.abspath(__file__)))
REPO = os.environ.get("VERIF_REPO", "/repo")
# VERIF_ALT=<name> (development aid, never set by a registered command): evaluate a different checkout (VERIF_REPO) without
# touching /repo, the main build cache, the evidence or the replay files - own target directory and harness copy, Coq not rebuilt
ALT = os.environ.get("VERIF_ALT")
MAIN_CACHE = os.path.join(VERIF, ".cache")
CACHE = os.path.join(MAIN_CACHE, "alt-" + ALT) if ALT else MAIN_CACHE
OUT_ROOT = CACHE if ALT else VERIF
COQ = os.path.join(VERIF, "coq")
TARGET = os.path.join(CACHE, "target")
RUSTFLAGS = "--cfg tokio_unstable --cfg pnordahl_monorail_verif"
BIN_MONORAIL = os.path.join(TARGET, "debug", "monorail")
BIN_VHARNESS = os.path.join(TARGET, "debug", "vharness")
BIN_VHELPER = os.path.join(TARGET, "debug", "vhelper")
BIN_VMODEL = os.environ.get("VERIF_VMODEL") if (ALT and os.environ.get("VERIF_VMODEL")) else os.path.join(MAIN_CACHE, "ocaml", "vmodel")

FORBIDDEN = re.compile(r"\b(Admitted|admit|Axiom|Axioms|Parameter|Parameters|Conjecture|Conjectures|Abort All|bypass_check)\b|Unset\s+Guard|Unset\s+Positivity|Unset\s+Universe|-type-in-type|-impredicative-set|Admit Obligations")
ALLOWED_AXIOMS = set()  # every property theorem is expected to be closed under the global context

# ---------------------------------------------------------------- wire format
def enc(x):
    if x is None:
        return "()"
    if isinstance(x, bool):
        return "1" if x else "0"
    if isinstance(x, int):
        return str(x)
    if isinstance(x, str):
        return "s" + x.encode("utf-8").hex()
    if isinstance(x, (bytes, bytearray)):
        return "s" + bytes(x).hex()
    if isinstance(x, (list, tuple)):
        return "(" + " ".join(enc(y) for y in x) + ")"
    raise TypeError(type(x))

def dec(s):
    toks = s.replace("(", " ( ").replace(")", " ) ").split()
    pos = 0
    def val():
        nonlocal pos
        t = toks[pos]; pos += 1
        if t == "(":
            out = []
            while toks[pos] != ")":
                out.append(val())
            pos += 1
            return out
        return int(t)
    return val()

def dstr(v):
    return bytes(v).decode("utf-8", "replace")

class Proc:
    """A child process speaking one request line -> one answer line."""
    def __init__(self, argv, env=None):
        self.argv = argv
        self.p = subprocess.Popen(argv, stdin=subprocess.PIPE, stdout=subprocess.PIPE, env=env, text=True, bufsize=1)
    def ask(self, line):
        self.p.stdin.write(line + "\n"); self.p.stdin.flush()
        out = self.p.stdout.readline()
        if not out:
            raise RuntimeError("child %s died on: %s" % (self.argv[0], line[:300]))
        return out.rstrip("\n")
    def close(self):
        try:
            self.p.stdin.close(); self.p.wait(timeout=10)
        except Exception:
            self.p.kill()

def _big_stack():
    # the extracted model recurses once per list element (a 700 000-byte log is a 700 000-element list)
    import resource
    soft, hard = resource.getrlimit(resource.RLIMIT_STACK)
    try: resource.setrlimit(resource.RLIMIT_STACK, (hard, hard))
    except Exception: pass

class Model(Proc):
    def __init__(self):
        self.argv = [BIN_VMODEL]
        self.p = subprocess.Popen(self.argv, stdin=subprocess.PIPE, stdout=subprocess.PIPE, text=True, bufsize=1, preexec_fn=_big_stack)
    def call(self, name, *args):
        return dec(self.ask(name + " " + enc(list(args))))

class Harness(Proc):
    def __init__(self, scratch):
        super().__init__([BIN_VHARNESS, scratch])
    def call(self, **req):
        return json.loads(self.ask(json.dumps(req)))

# ---------------------------------------------------------------- builds
def sh(cmd, cwd=None, env=None, timeout=1800):
    e = dict(os.environ)
    if env: e.update(env)
    r = subprocess.run(cmd, cwd=cwd, env=e, stdout=subprocess.PIPE, stderr=subprocess.STDOUT, text=True, timeout=timeout, shell=isinstance(cmd, str))
    return r.returncode, r.stdout

class BuildLock:
    def __enter__(self):
        os.makedirs(CACHE, exist_ok=True)
        self.f = open(os.path.join(CACHE, "build.lock"), "w")
        fcntl.flock(self.f, fcntl.LOCK_EX)
        return self
    def __exit__(self, *a):
        fcntl.flock(self.f, fcntl.LOCK_UN); self.f.close()

def cargo_env():
    return {"CARGO_TARGET_DIR": TARGET, "RUSTFLAGS": RUSTFLAGS, "CARGO_NET_OFFLINE": "true"}

def repo_digest():
    """Content digest of everything cargo compiles from the checkout under test (mtimes are not trusted: a file put back with an
    old timestamp must still cause a rebuild)."""
    h = hashlib.sha256()
    roots = [os.path.join(REPO, "src"), os.path.join(REPO, "Cargo.toml"), os.path.join(REPO, "Cargo.lock"), os.path.join(REPO, "build.rs"),
             os.path.join(REPO, ".cargo"), os.path.join(VERIF, "harness", "src"), os.path.join(VERIF, "harness", "Cargo.toml")]
    for r in roots:
        if os.path.isfile(r): files = [r]
        else: files = sorted(os.path.join(d, f) for d, _, fs in os.walk(r) for f in fs)
        for f in files:
            h.update(f.encode()); h.update(b"\0")
            try: h.update(open(f, "rb").read())
            except OSError: pass
            h.update(b"\0")
    return h.hexdigest()

def build_rust(log):
    """Rebuild harness (path dependency on /repo, so it follows the working tree) and the monorail binary."""
    hdir = os.path.join(VERIF, "harness")
    if ALT:
        hdir = os.path.join(CACHE, "harness")
        shutil.rmtree(hdir, ignore_errors=True)
        shutil.copytree(os.path.join(VERIF, "harness"), hdir, ignore=shutil.ignore_patterns("target"))
        ct = os.path.join(hdir, "Cargo.toml")
        txt = open(ct).read().replace('path = "/repo"', 'path = "%s"' % REPO)
        open(ct, "w").write(txt)
    digest = repo_digest() + "|" + REPO
    stamp = os.path.join(CACHE, "rust_src.stamp")
    if os.path.isdir(TARGET) and (not os.path.exists(stamp) or open(stamp).read() != digest):
        # the sources differ from what the cached artifacts were built from: do not leave it to cargo's timestamp comparison
        sh(["cargo", "clean", "--offline", "-p", "monorail"], cwd=REPO, env=cargo_env())
        sh(["cargo", "clean", "--offline", "-p", "monorail", "-p", "vharness"], cwd=hdir, env=cargo_env())
    rc, out = sh(["cargo", "build", "--offline", "--bins"], cwd=hdir, env=cargo_env())
    log.append(out[-3000:])
    if rc != 0:
        return False, "cargo build of harness failed:\n" + out[-3000:]
    rc, out = sh(["cargo", "build", "--offline", "--bin", "monorail"], cwd=REPO, env=cargo_env())
    log.append(out[-3000:])
    if rc != 0:
        return False, "cargo build of /repo failed:\n" + out[-3000:]
    open(stamp, "w").write(digest)
    return True, ""

def coq_sources():
    out = []
    for root, _, files in os.walk(COQ):
        for f in files:
            if f.endswith(".v"):
                out.append(os.path.join(root, f))
    return sorted(out)

def build_coq(log):
    """Full .vo build (incremental through make), forbidden-token scan, extraction, vmodel."""
    problems = []
    if ALT: return True, problems
    for f in coq_sources():
        txt = open(f).read()
        txt_nc = re.sub(r"\(\*.*?\*\)", "", txt, flags=re.S)
        m = FORBIDDEN.search(txt_nc)
        if m:
            problems.append("forbidden token %r in %s" % (m.group(0), os.path.relpath(f, VERIF)))
    if not os.path.exists(os.path.join(COQ, "Makefile")) or os.path.getmtime(os.path.join(COQ, "Makefile")) < os.path.getmtime(os.path.join(COQ, "_CoqProject")):
        rc, out = sh("coq_makefile -f _CoqProject -o Makefile", cwd=COQ)
        if rc != 0: problems.append("coq_makefile failed: " + out[-500:])
    rc, out = sh("timeout 1500 make -k -j16", cwd=COQ)
    log.append(out[-4000:])
    make_ok = rc == 0
    if not make_ok:
        problems.append("coq make failed:\n" + out[-2500:])
    # extraction output -> vmodel (only when model.ml changed)
    src = os.path.join(COQ, "model.ml")
    dst_dir = os.path.join(MAIN_CACHE, "ocaml"); os.makedirs(dst_dir, exist_ok=True)
    if os.path.exists(src):
        h = hashlib.sha256(open(src, "rb").read() + open(os.path.join(VERIF, "ocaml", "vmodel.ml"), "rb").read()).hexdigest()
        stamp = os.path.join(dst_dir, "stamp")
        if not os.path.exists(BIN_VMODEL) or not os.path.exists(stamp) or open(stamp).read() != h:
            for f in ("model.ml", "model.mli"):
                shutil.copy(os.path.join(COQ, f), dst_dir)
            shutil.copy(os.path.join(VERIF, "ocaml", "vmodel.ml"), dst_dir)
            rc, out = sh("ocamlfind ocamlopt -O3 -w -a model.mli model.ml vmodel.ml -o vmodel", cwd=dst_dir)
            if rc != 0:
                problems.append("ocaml build failed: " + out[-1500:])
            else:
                open(stamp, "w").write(h)
    else:
        problems.append("extraction produced no model.ml")
    return make_ok, problems

def check_theorems(prop, theorems):
    """Re-check, in this run, that each named theorem exists in compiled form with the pinned statement
    and print its assumptions.  Returns (ok_list, failed_list, assumptions dict)."""
    ok, bad, assum = [], [], {}
    d = tempfile.mkdtemp(prefix="vthm-")
    try:
        for (module, name) in theorems:
            fn = os.path.join(d, "chk.v")
            open(fn, "w").write("From MR Require Import %s.\nPrint Assumptions %s.\n" % (module, name))
            rc, out = sh(["coqc", "-Q", COQ, "MR", fn], cwd=d, timeout=300)
            if rc != 0:
                bad.append((module, name, out[-800:])); continue
            if "Closed under the global context" in out:
                ok.append((module, name)); assum[name] = []
            else:
                axs = re.findall(r"^([A-Za-z_][\w.']*)\s*:", out, flags=re.M)
                assum[name] = axs
                if all(a in ALLOWED_AXIOMS for a in axs):
                    ok.append((module, name))
                else:
                    bad.append((module, name, "depends on axioms: " + ", ".join(axs)))
    finally:
        shutil.rmtree(d, ignore_errors=True)
    return ok, bad, assum

def coqchk(modules):
    """Thorough tier: re-check the compiled property files and everything they depend on with the independent checker."""
    mods = sorted(set("MR." + m for m, _ in modules))
    rc, out = sh(["coqchk", "-o", "-silent", "-Q", COQ, "MR"] + mods, cwd=COQ, timeout=3000)
    ok = rc == 0 and "* Axioms: <none>" in out and "type-in-type: <none>" in out and "unsafe (co)fixpoints: <none>" in out and "positivity is assumed: <none>" in out
    return ok, out[-1200:]

# ---------------------------------------------------------------- verdict bookkeeping
class Ctx:
    def shrink_expired(self):
        return self.shrink_deadline is not None and time.time() > self.shrink_deadline
    def __init__(self, prop, tier, seed, replay=None):
        self.prop, self.tier, self.seed, self.replay = prop, tier, seed, replay
        self.rng = random.Random((seed << 8) ^ int(hashlib.sha256(prop.encode()).hexdigest()[:8], 16))
        self.t0 = time.time()
        self.evaluations = 0
        self.nontrivial = set()
        self.samples = []
        self.hist = {}
        self.spec_failures = []     # (case, detail): concrete failing inputs against the implementation
        self.tie_breaks = []        # (case, detail): model and implementation disagree, spec not violated
        self.traces_validated = 0
        self.notes = []
        self.shrink_deadline = None     # shrinking is best effort: a replay file need not be minimal, but the check must end
        self.scratch = tempfile.mkdtemp(prefix="verif-%s-" % prop)
        self._model = None; self._harness = None
    # lazily started helpers
    @property
    def model(self):
        if self._model is None: self._model = Model()
        return self._model
    @property
    def harness(self):
        if self._harness is None: self._harness = Harness(os.path.join(self.scratch, "vh"))
        return self._harness
    def quick(self): return self.tier != "thorough"
    def count(self, key, n=1): self.hist[key] = self.hist.get(key, 0) + n
    def record(self, case, in_scope, agree, spec_ok, nontrivial=False, sample=None, detail=None, tie_relevant=True):
        """One evaluated case.  `case` must be JSON-serialisable (it becomes the replay)."""
        self.evaluations += 1
        if agree: self.traces_validated += 1
        if nontrivial:
            self.nontrivial.add(hashlib.sha1(json.dumps(case, sort_keys=True).encode()).hexdigest())
        if sample is not None and len(self.samples) < 4:
            self.samples.append(sample)
        if in_scope and not spec_ok:
            self.spec_failures.append((case, detail))
        elif not agree and tie_relevant:
            self.tie_breaks.append((case, detail))
    def close(self):
        for p in (self._model, self._harness):
            if p is not None: p.close()
        shutil.rmtree(self.scratch, ignore_errors=True)

def load_known():
    p = os.path.join(VERIF, "known_findings.json")
    if os.path.exists(p):
        return json.load(open(p))
    return {"findings": []}

def write_replay(prop, kind, case, detail):
    d = os.path.join(OUT_ROOT, "replays", prop); os.makedirs(d, exist_ok=True)
    h = hashlib.sha1(json.dumps(case, sort_keys=True, default=str).encode()).hexdigest()[:12]
    fn = os.path.join(d, "%s-%s.json" % (kind, h))
    json.dump({"property": prop, "kind": kind, "case": case, "detail": detail}, open(fn, "w"), indent=1, default=str)
    return fn

def write_evidence(ctx, level_note, obligations, discharged, theorem_names, trusted_base, rule, violations, extra=None):
    d = os.path.join(OUT_ROOT, "evidence"); os.makedirs(d, exist_ok=True)
    cov = {
        "obligations": obligations, "discharged": discharged,
        "checker_cmd": "make -C coq (coqc 8.16.1, full .vo build) + coqc Print Assumptions on: " + ", ".join(theorem_names),
        "trusted_base": trusted_base,
        "evaluations": ctx.evaluations, "distinct_nontrivial": len(ctx.nontrivial), "rule": rule,
        "samples": ctx.samples if ctx.samples else [{"theorems": theorem_names}],
        "traces_validated_against_impl": ctx.traces_validated,
        "input_distribution": ctx.hist,
        "explanation": level_note,
    }
    if extra: cov.update(extra)
    ev = {"property_id": ctx.prop, "tier": "thorough" if ctx.tier == "thorough" else "quick", "seed": ctx.seed,
          "level": "proof", "coverage": cov, "assumptions": trusted_base, "wall_s": round(time.time() - ctx.t0, 2),
          "violations": violations}
    json.dump(ev, open(os.path.join(d, ctx.prop + ".json"), "w"), indent=1, default=str)

# ---------------------------------------------------------------- real repositories and the CLI
GIT_ENV = {"GIT_AUTHOR_NAME": "verif", "GIT_AUTHOR_EMAIL": "verif@example.invalid",
           "GIT_COMMITTER_NAME": "verif", "GIT_COMMITTER_EMAIL": "verif@example.invalid",
           "GIT_CONFIG_NOSYSTEM": "1", "GIT_CONFIG_GLOBAL": "/dev/null", "HOME": "/nonexistent",
           "GIT_AUTHOR_DATE": "2024-01-01T00:00:00Z", "GIT_COMMITTER_DATE": "2024-01-01T00:00:00Z"}

def git(repo, *args, check=True):
    e = dict(os.environ); e.update(GIT_ENV)
    r = subprocess.run(["git"] + list(args), cwd=repo, env=e, stdout=subprocess.PIPE, stderr=subprocess.PIPE)
    if check and r.returncode != 0:
        raise RuntimeError("git %s failed: %s" % (" ".join(args), r.stderr.decode("utf-8", "replace")))
    return r.stdout

_PORT_DIR = os.path.join(tempfile.gettempdir(), ".verif-ports")
_reserved = []
def _release_ports():
    for f in _reserved:
        try: os.remove(f)
        except OSError: pass
def _reserve(p):
    """Cross-process reservation of the pair (p, p+1): an O_EXCL marker file naming the owner, plus a bind probe."""
    import socket
    f = os.path.join(_PORT_DIR, str(p))
    try:
        fd = os.open(f, os.O_CREAT | os.O_EXCL | os.O_WRONLY, 0o644)
    except FileExistsError:
        try:
            owner = int(open(f).read().strip() or "0")
            os.kill(owner, 0)
            return False                      # owned by a live process
        except (ValueError, ProcessLookupError, OSError):
            try: os.remove(f)
            except OSError: pass
            return False                      # stale marker removed; the caller draws again
    os.write(fd, str(os.getpid()).encode()); os.close(fd)
    for q in (p, p + 1):
        sk = socket.socket(socket.AF_INET, socket.SOCK_STREAM)
        try:
            sk.bind(("127.0.0.1", q))
        except OSError:
            sk.close()
            try: os.remove(f)
            except OSError: pass
            return False
        sk.close()
    _reserved.append(f)
    return True
_port_rng = [None]
def fresh_ports():
    """A pair of TCP ports (lock, log) private to this scenario: below the ephemeral range, reserved against every other check
    process running on the machine (several checks may run at once), and verified to be free right now."""
    if _port_rng[0] is None:
        os.makedirs(_PORT_DIR, exist_ok=True)
        _port_rng[0] = random.Random(os.getpid() * 1000003 + int(time.time() * 1000) % 1000003)   # not the scenario generator
        import atexit; atexit.register(_release_ports)
    for _ in range(5000):
        p = 10000 + 2 * _port_rng[0].randrange(11000)
        if _reserve(p): return p, p + 1
    raise RuntimeError("no free port pair found")

def write_config(repo, cfg, extra=None):
    d = dict(cfg)
    lock, log = fresh_ports()
    d.setdefault("server", {"lock": {"port": lock, "bind_timeout_ms": 1000}, "log": {"port": log, "bind_timeout_ms": 1000}})
    if extra: d.update(extra)
    open(os.path.join(repo, "Monorail.json"), "w").write(json.dumps(d))
    return d

def monorail(repo, *args, env=None, timeout=120, stdin=None, cwd=None, prefix=()):
    """Run the real binary with cwd = repository root (or the directory given).  Returns (rc, stdout-json-or-None, stderr-json-or-None, raw)."""
    e = dict(os.environ); e.update(GIT_ENV)
    if env: e.update(env)
    r = subprocess.run(list(prefix) + [BIN_MONORAIL, "-f", os.path.join(repo, "Monorail.json")] + list(args), cwd=cwd or repo, env=e,
                       stdout=subprocess.PIPE, stderr=subprocess.PIPE, timeout=timeout, input=stdin)
    def last_json(b):
        for line in reversed(b.decode("utf-8", "replace").strip().splitlines()):
            try: return json.loads(line)
            except Exception: continue
        return None
    return r.returncode, last_json(r.stdout), last_json(r.stderr), r

def mk_repo(ctx, cfg, extra_files=None, object_format=None):
    """A fresh git repository whose targets exist on disk and are committed (object_format="sha256": 64-digit object names)."""
    repo = tempfile.mkdtemp(prefix="repo-", dir=ctx.scratch)
    git(repo, "init", "-q", "-b", "main", *(["--object-format=" + object_format] if object_format else []))
    for t in cfg.get("targets", []):
        os.makedirs(os.path.join(repo, t["path"]), exist_ok=True)
        with open(os.path.join(repo, t["path"], "_f"), "w") as f: f.write("x")
    for p, content in (extra_files or {}).items():
        os.makedirs(os.path.dirname(os.path.join(repo, p)) or repo, exist_ok=True)
        with open(os.path.join(repo, p), "wb") as f: f.write(content if isinstance(content, bytes) else content.encode())
    with open(os.path.join(repo, ".gitignore"), "w") as f: f.write("monorail-out\n")
    write_config(repo, cfg)
    git(repo, "add", "-A"); git(repo, "commit", "-q", "-m", "init")
    return repo
